#!/usr/bin/env python3
"""Regenerates /verif/MANIFEST.json from the table below (claimed checks) - properties without a check module go to not_applicable."""
import json
import os

V = os.path.dirname(os.path.dirname(os.path.abspath(__file__)))
props = [json.loads(l) for l in open(os.path.join(V, "properties.jsonl"))]

CLAIMS = {
    "C01": ("other", "4.C01", "path-sensitive abstract interpretation of the whole entry points over the MIR (rustc_private driver) with the cryptographic primitives as uninterpreted functions (canonical descriptions), compared with the specification's algorithm and composed with the sibling entry point; layer contracts of the wrappers by interpretation with the layer below summarised; structural CFG / provenance-term rules as second opinion for undecided entry points",
            "Decides, over all paths of the interpreted entry points: the consuming side run on the producing side's symbolic output returns exactly the message for every footer / assertion case (absent == empty), the producer computes the specification's token, parse_raw_token refuses only for stated causes, and the generic / prelude wrappers and setters forward payload, key, footer, assertion and keep builder state. The axioms about the primitives (stream cipher involution, AEAD, UTF-8) are trusted, not decided.",
            "trusted: stream ciphers are involutions under the same key and counter, AEAD decrypt inverts encrypt, serde_json/UTF-8 round trips; the models of external callees in rules/psai.py / rules/models.py; rustc MIR is faithful"),
    "C02": ("other", "4.C02", "path-sensitive abstract interpretation of the whole entry points over the MIR (rustc_private driver) with the cryptographic primitives as uninterpreted functions (canonical descriptions), compared with the specification's algorithm and composed with the sibling entry point; layer contracts of the wrappers by interpretation with the layer below summarised; structural CFG / provenance-term rules as second opinion for undecided entry points",
            "Same as C01 for sign / verify: composition verify(sign(M)) = M on all paths, producer == specification, returned message = authenticated message, wrapper contracts, and the v3 public key constructor admits exactly the SEC1 compressed tags (symbolic tag byte); signature scheme correctness is an axiom of the models.",
            "trusted: verify(sign(m)) holds exactly for the signer's public key and message in ring / ed25519-dalek / p384; models of external callees"),
    "C03": ("proof", "4.C03", "path-sensitive abstract interpretation of the 8 core consumers and the 16 parser wrappers (events: authentication success before any keystream / UTF-8 step) + gates of parse_raw_token + panic-site inventory; CFG dominance as second opinion",
            "Ordering proof over all interpreted paths: every accepting path of the 8 consumers carries the success event of the specification's authentication check (whole tag / signature / AEAD over the specification's PAE with the caller's key, footer, assertion) before any plaintext step; the returned content is the authenticated content; claims are examined only on the Ok value of the authenticating call; one strict base64 engine; textual gates; no panic in the core consumers. Obligations are counted and all must be discharged.",
            "trusted: MAC/signature unforgeability, base64 URL_SAFE_NO_PAD strictness, ring verify_slices_are_equal semantics"),
    "C04": ("other", "4.C04", "path-sensitive abstract interpretation of the whole entry points over the MIR (rustc_private driver) with the cryptographic primitives as uninterpreted functions (canonical descriptions), compared with the specification's algorithm and composed with the sibling entry point; layer contracts of the wrappers by interpretation with the layer below summarised; structural CFG / provenance-term rules as second opinion for undecided entry points",
            "Decides that every primitive is keyed from the caller's key exactly as the specification says, that the consumer run on a token produced under another key returns no Ok on any path, and that signers are built from the whole private key by the validating constructor; that another key makes a real MAC / signature fail is the axiom behind the models (PRF / unforgeability).",
            "trusted: HKDF/BLAKE2b are PRFs, signatures unforgeable"),
    "C05": ("other", "4.C05", "path-sensitive abstract interpretation of the whole entry points over the MIR (rustc_private driver) with the cryptographic primitives as uninterpreted functions (canonical descriptions), compared with the specification's algorithm and composed with the sibling entry point; layer contracts of the wrappers by interpretation with the layer below summarised; structural CFG / provenance-term rules as second opinion for undecided entry points; must-pass-through / path-sensitive gates of parse_raw_token; abstract evaluation of format_token",
            "Decides the footer gate (4-segment tokens only through the equal edge of a full-length comparison with the expected footer, 3-segment tokens only when the expected footer is absent or empty), that the produced token text equals the specification's for absent / empty / present footer, that the caller's expected footer is under every authenticator, that a token built with another footer is accepted on no path, PAE framing, and the plumbing (wrappers, setters store their argument and leave the other fields alone).",
            "trusted: MAC strength; ring verify_slices_are_equal; base64 injective"),
    "C06": ("other", "4.C06", "path-sensitive abstract interpretation of the whole entry points over the MIR (rustc_private driver) with the cryptographic primitives as uninterpreted functions (canonical descriptions), compared with the specification's algorithm and composed with the sibling entry point; layer contracts of the wrappers by interpretation with the layer below summarised; structural CFG / provenance-term rules as second opinion for undecided entry points; field-read analysis; impl-header facts",
            "Decides that the assertion is the last authenticated component with the caller's value on both sides, that another assertion is accepted on no path (absent == empty), that it occurs in the token's symbolic description only inside the tag / signature, that it is carried unchanged, forwarded by all wrappers, and only settable for v3/v4.",
            "trusted: MAC strength; PAE length prefixing (checked by C08.R7)"),
    "C07": ("other", "4.C07", "path-sensitive abstract interpretation of the whole entry points over the MIR (rustc_private driver) with the cryptographic primitives as uninterpreted functions (canonical descriptions), compared with the specification's algorithm and composed with the sibling entry point; layer contracts of the wrappers by interpretation with the layer below summarised; structural CFG / provenance-term rules as second opinion for undecided entry points; gates of parse_raw_token; constant tables by abstract evaluation",
            "Decides the header gate (both components compared on every accepting path), that every accepting path of each consumer found the token's header equal to the protocol's own, the marker/header string tables, that the protocol's own header is under every authenticator, and that the consumer of protocol Y accepts no payload produced by protocol X != Y (symbolic composition over the ordered pairs sharing a purpose).",
            "trusted: MAC strength; split('.') segments contain no '.'"),
    "C08": ("other", "4.C08", "path-sensitive abstract interpretation of the whole entry points over the MIR (rustc_private driver) with the cryptographic primitives as uninterpreted functions (canonical descriptions), compared with the specification's algorithm and composed with the sibling entry point; layer contracts of the wrappers by interpretation with the layer below summarised; structural CFG / provenance-term rules as second opinion for undecided entry points; abstract interpretation of format_token / PAE",
            "Decides that the symbolic token each producer computes equals the specification's algorithm transcribed in the same vocabulary (nonce derivation, key split constants, cipher, PAE, tag/signature, layout, base64url, footer segment iff non-empty), that each consumer performs the specification's check and returns its plaintext, and the composition; byte-exactness of primitives is trusted.",
            "trusted: primitives are byte-exact; the transcription of Version1-4.md in rules/psai.py (spec_local / spec_public)"),
    "C09": ("proof", "4.C09", "path-sensitive abstract interpretation (affine / interval length domain) of the consumers' MIR with a panic-site inventory",
            "Every panic-capable site reachable from untrusted text (MIR asserts, indexing, split_at, copy_from_slice, from_slice, unwrap/expect, assert_eq!, explicit panics) is an obligation discharged from dominating guards and type-level lengths on every path; unknown external callees are findings. All obligations must be discharged.",
            "trusted: SAFE table of dependency functions (do not panic); blake2 / hmac / chacha key-length contracts; lengths <= isize::MAX"),
    "C10": ("other", "4.C10", "layer contract of the generic builders by abstract interpretation (one fresh Key::try_new_random of the right size per build reaches the core call) + abstract evaluation of try_new_random + producer == specification (all nonce bytes on the wire)",
            "Decides freshness by construction; the statistical statement over histories of an OS CSPRNG is not decidable statically.",
            "trusted: ring SystemRandom is a CSPRNG"),
    "C11": ("proof", "4.C11", "CFG/term check of the registration + finite-partition abstract interpretation of the validator closure's MIR",
            "Behaviour table of the default exp validator over an exhaustive partition of (JSON value class x time order); every class is an obligation and must get the required verdict; plus registration on every path, plumbing down to claim_validators, the validator table only grows, and the wrapped GenericParser cannot be reached through PasetoParser.",
            "trusted: time's RFC 3339 parser and instant ordering; serde_json accessors; models in rules/models.py"),
    "C12": ("proof", "4.C12", "CFG/term check of the registration + finite-partition abstract interpretation of the validator closure's MIR",
            "Same as C11 for nbf with the direction reversed.",
            "trusted: time's RFC 3339 parser and instant ordering; serde_json accessors; models in rules/models.py"),
    "C13": ("other", "4.C13", "provenance terms of the defaults + build contract of the 8 prelude build methods by abstract interpretation (generic builder summarised) + who-writes over functions reachable from build",
            "Decides: defaults from one now (+1h), exp removed iff acknowledged and at build time, flags persist across builds, duplicate error first, that building never drains / caches builder state (a two-claim builder's claims are the same after build_payload_from_claims on every path), and that the wrapped GenericBuilder cannot be reached through PasetoBuilder (private field, no public function - Deref included - involving both types). Rendered values are not decided.",
            "trusted: time crate rendering; HashMap semantics"),
    "C14": ("other", "4.C14", "abstract interpretation of the 17 claim constructors (key stored on every constructing path) + per-impl serialisation shape + abstract interpretation of set_claim and the claim mutators on concrete maps over the JSON partition, of the payload on two-claim builders under every registered key (entries and payload text) and of wrap_claims / wrap_value on concrete small inputs (lazy iterators, concrete maps)",
            "Decides the structural conditions of claim fidelity: registered keys, one-entry serialisation, storage under the claim's key (last wins), unwrapping exactly the one-entry map, no entry dropped / added / re-keyed / transformed at build time, parser returns the parsed payload unmodified. serde_json value round trips are trusted.",
            "trusted: serde_json round trips JSON values; HashMap::insert replaces"),
    "C15": ("other", "4.C15", "behaviour table of verify_claims by abstract interpretation on a concrete parser configuration (expected {aud, exp}, validators {exp, nbf}) over the JSON partition + who-writes over functions reachable from parse",
            "Decides, over all paths: an expected claim without validator yields Missing on null and an error on a differing value, success only when present and JSON-equal; no parser state changes through parse; the default parser registers validators for exactly exp and nbf; the registration functions, interpreted from all 16 combinations of earlier entries, store the new expectation under its key and keep every other entry.",
            "trusted: serde_json Value equality / indexing; HashMap iteration"),
    "C16": ("other", "4.C16", "parse contracts (claims only on the Ok value of the authenticating call) and behaviour table of verify_claims by abstract interpretation; registration plumbing by abstract evaluation",
            "Decides: validators are invoked only after authentication, with (key, &json[key]); an error fails the parse; on success every registered validator (with or without expected claim) ran exactly once and never twice on any path; a claim with a validator is decided by the validator alone; registration (interpreted from all 16 combinations of earlier entries) stores the validator under its key and keeps every other validator; claims are constructed under their registered keys.",
            "trusted: HashMap iteration visits each key once"),
    "C18": ("other", "4.C18", "constant table + abstract interpretation of the reserved-key check and of all CustomClaim / time-claim constructors",
            "Decides: reserved table = the 7 registered keys; check is exact on the unmodified key and gates all three constructor forms which store the given key; time constructors accept iff iso8601::datetime accepts and keep the value verbatim. The acceptance set of iso8601 is trusted.",
            "trusted: iso8601::datetime acceptance set; slice contains / str equality exact"),
    "C17": ("proof", "4.C17", "call-sequence contracts: PasetoBuilder driven through its public API from default() by abstract interpretation with the wrapped GenericBuilder summarised (50 sequences per protocol in the quick tier, every sequence up to a length against a reference model in the thorough tier); field-level rules (set_claim / verify_ready_to_build, who-writes, CFG dominance in the 8 build methods) as second opinion",
            "Every enumerated call sequence must behave as the property states (duplicate -> Err(Duplicate(that key)) and nothing built, on that and every later build, also across a successful build; single claims build); when the interpreter is undecided the history quantifier is discharged by the field-level invariant (flag set <=> a key was inserted twice; flag set => build fails first) whose preservation by every method is checked; all obligations must be discharged.",
            "trusted: HashSet::insert semantics; get_key purity for user-defined claims"),
    "C19": ("proof", "4.C19", "type checker as oracle over a generated compile-fail / compile-pass matrix + closed-world impl-header audit over the driver's facts",
            "Every generated mixing program must be rejected by rustc inside its function with a type / bound / method error and every matching twin must type-check; the audit covers all programs: every way to obtain or consume a key type is in a frozen table. All obligations must be discharged.",
            "trusted: rustc; coherence (the crate's impl set is closed)"),
    "C20": ("proof", "4.C20", "type checker as oracle over the feature lattice (cargo check of a generated client with auto-trait and inference witnesses) + cfg lint + API-growth comparison of driver facts + header table per configuration",
            "Every configuration of the tier is type-checked (quick: singletons, pairs, full set, specials; thorough: all 255 subsets x 3 layers); obligations = configurations + cfg predicates + api items, all must be discharged. The run-time clause (round trips) is not decided.",
            "trusted: rustc/cargo; the generated smoke client stands for client code"),
}

checks = []
na = []
for p in props:
    pid = p["id"]
    mod = os.path.join(V, "rules", "props", pid.lower() + ".py")
    if pid in CLAIMS and os.path.exists(mod):
        cat, ref, tech, text, note = CLAIMS[pid]
        checks.append({
            "property_id": pid,
            "quick_cmd": "./check %s --tier quick" % pid,
            "thorough_cmd": "./check %s --tier thorough" % pid,
            "evidence_file": "/verif/evidence/%s.json" % pid,
            "replay_cmd_template": "./check explain {path}",
            "engine": "pvfacts+rules",
            "level_claimed": {"category": cat, "text": text, "design_ref": "DESIGN.md section " + ref},
            "level_note": note,
            "technique": "static analysis: " + tech,
        })
    else:
        na.append({"property_id": pid, "reason": "check not yet built in this round (planned static rule set: DESIGN.md section 4)"})

m = {
    "version": 1,
    "setup_cmd": "./check setup",
    "hooks": {"guard": "rusty_paseto_verif", "enable": "none needed: the analysis reads the unmodified crate (no instrumentation commits)",
              "baseline_off_cmd": "cd /repo && cargo test --workspace --no-fail-fast --offline", "source_commits": [], "add_only": True},
    "engines": [
        {"name": "pvfacts", "path": "driver/", "serves_properties": sorted(CLAIMS), "kind_free_text": "rustc_private MIR/HIR fact extractor (RUSTC_WORKSPACE_WRAPPER under cargo +nightly check)"},
        {"name": "rules", "path": "rules/", "serves_properties": sorted(CLAIMS), "kind_free_text": "Python rule engine: CFG dominance, provenance terms, who-writes, constant tables, abstract interpretation"},
        {"name": "typecheck-oracle", "path": "rules/props/c20.py", "serves_properties": ["C19", "C20"], "kind_free_text": "rustc type checker as oracle over generated programs / feature configurations"},
    ],
    "checks": checks,
    "not_applicable": na,
    "notes": "Genuine defects repaired in /repo as fix: commits are listed in known_findings.json (fixed entries); one known finding (C20, cfg-gated variants of the exhaustive public enum PasetoError).",
}
json.dump(m, open(os.path.join(V, "MANIFEST.json"), "w"), indent=1)
print("checks:", [c["property_id"] for c in checks], "na:", [n["property_id"] for n in na])
