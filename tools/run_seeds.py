#!/usr/bin/env python3
"""Apply every seeded change (seeded/<id>/patch.diff, or a directory given with --src) to a scratch copy of /repo and run the checks
against it (PV_REPO).  Prints the matrix seed x check -> fired?   Usage: run_seeds.py [--src DIR] [--only Cxx-a,...] [--checks C01,C03]"""
import json
import os
import shutil
import subprocess
import sys
from concurrent.futures import ThreadPoolExecutor

V = os.path.dirname(os.path.dirname(os.path.abspath(__file__)))
WORK = "/var/tmp/rusty_paseto_verif/seedruns"


def seeds(src):
    out = []
    for name in sorted(os.listdir(src)):
        d = os.path.join(src, name)
        if os.path.isfile(os.path.join(d, "patch.diff")):
            out.append((name, os.path.join(d, "patch.diff")))
    return out


def run_one(args):
    name, patch, checks = args
    d = os.path.join(WORK, name)
    shutil.rmtree(d, ignore_errors=True)
    os.makedirs(d)
    subprocess.run(["rsync", "-a", "--exclude", "target", "--exclude", ".git", "/repo/", d + "/repo/"], check=True)
    r = subprocess.run(["git", "apply", "--whitespace=nowarn", patch], cwd=d + "/repo", capture_output=True, text=True)
    if r.returncode != 0:
        # not inside a git repo: use patch(1)
        r = subprocess.run(["patch", "-p1", "-i", patch], cwd=d + "/repo", capture_output=True, text=True)
        if r.returncode != 0:
            shutil.rmtree(d, ignore_errors=True)
            return name, {"error": "patch does not apply: " + r.stderr[:200]}
    res = {}
    env = dict(os.environ)
    env["PV_REPO"] = d + "/repo"
    env["PV_EVIDENCE_DIR"] = d + "/evidence"
    for c in checks:
        rr = subprocess.run([os.path.join(V, "check"), c, "--tier", "quick"], cwd=V, env=env, capture_output=True, text=True)
        lines = [l for l in rr.stdout.splitlines() if l.startswith("C") and " -- " in l]
        res[c] = {"exit": rr.returncode, "rules": sorted(set(l.split(" ")[0] for l in lines)), "first": (lines[0][:300] if lines else "")}
    shutil.rmtree(d, ignore_errors=True)
    import hashlib, glob
    suf = "_" + hashlib.sha1((d + "/repo").encode()).hexdigest()[:8]
    for x in glob.glob("/var/tmp/rusty_paseto_verif/c19" + suf) + glob.glob("/var/tmp/rusty_paseto_verif/c20" + suf):
        shutil.rmtree(x, ignore_errors=True)
    return name, res


def main():
    src = os.path.join(V, "seeded")
    only = None
    checks = None
    a = sys.argv[1:]
    while a:
        if a[0] == "--src":
            src = a[1]; a = a[2:]
        elif a[0] == "--only":
            only = a[1].split(","); a = a[2:]
        elif a[0] == "--checks":
            checks = a[1].split(","); a = a[2:]
        else:
            a = a[1:]
    m = json.load(open(os.path.join(V, "MANIFEST.json")))
    allchecks = [c["property_id"] for c in m["checks"]]
    ss = seeds(src)
    if only:
        ss = [s for s in ss if s[0] in only]
    jobs = []
    for name, patch in ss:
        prop = name.split("-")[0]
        cs = checks or [c for c in allchecks if c != "C20" or prop == "C20"]
        jobs.append((name, patch, cs))
    os.makedirs(WORK, exist_ok=True)
    out = {}
    with ThreadPoolExecutor(max_workers=6) as ex:
        for name, res in ex.map(run_one, jobs):
            out[name] = res
            if "error" in res:
                print(name, res["error"])
                continue
            fired = [c for c, r in res.items() if r["exit"] != 0]
            own = name.split("-")[0]
            print("%-8s own=%s %-5s fired: %s" % (name, own, "HIT" if own in fired else "miss", ", ".join("%s[%s]" % (c, "/".join(res[c]["rules"])) for c in fired)))
    json.dump(out, open(os.path.join(WORK, "last_results.json"), "w"), indent=1)


if __name__ == "__main__":
    main()
