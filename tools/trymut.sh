#!/bin/bash
# usage: trymut.sh <patch.diff> <check ids...>   - apply a patch to a scratch copy of /repo and run checks against it
set -e
PATCH=$1; shift
D=/var/tmp/rusty_paseto_verif/mut/$$
mkdir -p $D
rsync -a --exclude target --exclude .git /repo/ $D/repo/
( cd $D/repo && git init -q . 2>/dev/null && git apply --whitespace=nowarn $PATCH )
for c in "$@"; do
  PV_REPO=$D/repo /verif/check $c --tier ${TIER:-quick} 2>&1 | grep -v '^WARNING conda' | sed "s#$D/repo/##g" | tail -${TAILN:-6}
done
rm -rf $D
