#!/bin/bash
# usage: [ROOT=dir] verify_benign.sh <Bn> <k>  - confirm a behaviour-preserving refactoring in its scratch worktree ROOT/Bn:
#   applies, compiles (default + all features), whole default suite and the all-features lib/integration tests pass.
ID=$1; K=$2
W=${ROOT:-/tmp/benign2}/$ID; O=$W/OUT/$K
export CARGO_TARGET_DIR=$W/target CARGO_NET_OFFLINE=true
cd $W || exit 2
git checkout -q -- . 
git apply --whitespace=nowarn $O/patch.diff || { echo "{\"apply\": false}" > $O/verify.json; cat $O/verify.json; exit 1; }
cargo check --offline >$O/v_check.log 2>&1; C1=$?
cargo check --offline --all-features >>$O/v_check.log 2>&1; C2=$?
cargo test --offline --workspace --no-fail-fast >$O/v_suite.log 2>&1; S=$?
cargo test --offline --all-features --lib --tests --no-fail-fast >$O/v_suite_all.log 2>&1; SA=$?
git checkout -q -- .
PASSED=$(grep -E '^test result' $O/v_suite.log | awk '{s+=$4} END{print s+0}')
FAILED=$(grep -E '^test result' $O/v_suite.log | awk '{s+=$6} END{print s+0}')
PA=$(grep -E '^test result' $O/v_suite_all.log | awk '{s+=$4} END{print s+0}')
FA=$(grep -E '^test result' $O/v_suite_all.log | awk '{s+=$6} END{print s+0}')
echo "{\"apply\": true, \"check_default\": $C1, \"check_all_features\": $C2, \"suite_exit\": $S, \"suite_passed\": $PASSED, \"suite_failed\": $FAILED, \"all_features_exit\": $SA, \"all_features_passed\": $PA, \"all_features_failed\": $FA}" > $O/verify.json
cat $O/verify.json
