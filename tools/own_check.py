"""Run every seeded change (or those whose name matches the regular expression given as the only argument) against its own property's check
only: `J=5 python3 tools/own_check.py '.'`.  Prints `<seed> HIT|miss <rules>`; environment: VERIF (default /verif), SEEDS (default
/verif/seeded), J (parallel jobs)."""
import sys, os, re
sys.path.insert(0, os.path.join(os.environ.get("VERIF", "/verif"), "tools"))
import run_seeds as R
from concurrent.futures import ThreadPoolExecutor
pat = re.compile(sys.argv[1])
ss = [s for s in R.seeds(os.environ.get("SEEDS", "/verif/seeded")) if pat.search(s[0])]
jobs = [(n, p, [n.split("-")[0]]) for n, p in ss]
os.makedirs(R.WORK, exist_ok=True)
with ThreadPoolExecutor(max_workers=int(os.environ.get("J", "4"))) as ex:
    for name, res in ex.map(R.run_one, jobs):
        if "error" in res:
            print(name, res["error"]); continue
        own = name.split("-")[0]
        r = res[own]
        print("%-8s %-4s %s" % (name, "HIT" if r["exit"] else "miss", "/".join(r["rules"])), flush=True)
