#!/bin/bash
# usage: tryb.sh <benign-or-seed dir name> <checks...>  - persistent scratch copy under mut/<name>, prints violation lines
N=$1; shift
SRC=/verif/benign/$N; [ -d $SRC ] || SRC=/verif/seeded/$N
P=/var/tmp/rusty_paseto_verif/mut/$N/repo
[ -d $P ] || ${VERIF:-/verif}/tools/mkmut.sh $SRC/patch.diff $N >/dev/null
for c in "$@"; do
  PV_REPO=$P PV_EVIDENCE_DIR=/tmp/ev ${VERIF:-/verif}/check $c 2>&1 | grep -v '^WARNING conda' | grep -v "^VIOLATION" | sed "s#$P/##g" | cut -c1-${CUT:-700}
done
