#!/bin/bash
# usage: [SEEDROOT=dir] verify_seed.sh <Cxx> <variant>   - confirm a seeded change in its scratch worktree /tmp/seed/Cxx:
#   compiles (default + all features), existing suite passes with the change, demo fails with it and passes without it.
ID=$1; V=$2
W=${SEEDROOT:-/tmp/seed}/$ID; O=$W/OUT/$V
export CARGO_TARGET_DIR=$W/target CARGO_NET_OFFLINE=true
cd $W || exit 2
git checkout -q -- . ; rm -f tests/seed_demo.rs
R=$O/verify.json
DEMO=$(python3 -c "
import json,re;m=json.load(open('$O/meta.json'));c=m.get('demo_cmd','')
c=re.sub(r'^cp [^&]*&&\s*','',c); c=re.sub(r'CARGO_TARGET_DIR=\S+\s*','',c); c=c.split('   ')[0].split(' (tests/')[0].strip()
print(c if c.startswith('cargo') else 'cargo test --offline --test seed_demo')")
git apply --whitespace=nowarn $O/patch.diff || { echo "{\"apply\": false}" > $R; exit 1; }
cargo check --offline >$O/v_check.log 2>&1; C1=$?
cargo check --offline --all-features >>$O/v_check.log 2>&1; C2=$?
cargo test --offline --workspace --no-fail-fast >$O/v_suite.log 2>&1; S=$?
cp $O/seed_demo.rs tests/seed_demo.rs
[ -f $O/seed_demo.sh ] && cp $O/seed_demo.sh $W/seed_demo.sh
eval "$DEMO" >$O/v_demo_with.log 2>&1; DW=$?
git checkout -q -- src Cargo.toml
eval "$DEMO" >$O/v_demo_without.log 2>&1; DO=$?
rm -f tests/seed_demo.rs $W/seed_demo.sh; git checkout -q -- .
PASSED=$(grep -E '^test result' $O/v_suite.log | awk '{s+=$4} END{print s+0}')
FAILED=$(grep -E '^test result' $O/v_suite.log | awk '{s+=$6} END{print s+0}')
echo "{\"apply\": true, \"check_default\": $C1, \"check_all_features\": $C2, \"suite_exit\": $S, \"suite_passed\": $PASSED, \"suite_failed\": $FAILED, \"demo_cmd\": \"$(echo $DEMO | sed 's/"/\\"/g')\", \"demo_with_change_exit\": $DW, \"demo_without_change_exit\": $DO}" > $R
cat $R
