#!/bin/bash
# usage: mkmut.sh <patch.diff> <name>   - persistent scratch copy of /repo with the patch applied; prints the PV_REPO path (remove it yourself)
set -e
D=/var/tmp/rusty_paseto_verif/mut/$2
rm -rf $D; mkdir -p $D
rsync -a --exclude target --exclude .git /repo/ $D/repo/
( cd $D/repo && git init -q . 2>/dev/null && git apply --whitespace=nowarn $1 )
echo $D/repo
