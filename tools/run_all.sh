#!/bin/bash
# run every registered quick check on the current tree and print one line each; validates evidence against the schema
cd /verif
ids=$(python3 -c "import json;print(' '.join(c['property_id'] for c in json.load(open('MANIFEST.json'))['checks']))")
fail=0
for c in $ids; do
  [ "$1" = "--fast" ] && [ "$c" = "C20" ] && continue
  out=$(./check $c --tier quick 2>&1 | grep -v '^WARNING conda'); rc=$?
  echo "$out" | tail -1
  echo "$out" | grep -q '^VIOLATION' && { fail=1; echo "$out" | grep -v '^VIOLATION' | head -5 | cut -c1-300; }
done
python3-vt - <<'PY'
import json,jsonschema,glob
s=json.load(open('/root/.vp/EVIDENCE.schema.json'))
m=json.load(open('/verif/MANIFEST.json'))
jsonschema.validate(m,json.load(open('/root/.vp/MANIFEST.schema.json')))
for c in m['checks']:
    f=c['evidence_file']
    try:
        e=json.load(open(f)); jsonschema.validate(e,s)
        if e['level']=='proof' and e['coverage'].get('obligations')!=e['coverage'].get('discharged'): print('EVIDENCE proof mismatch',f)
        if e['level']!=c['level_claimed']['category']: print('LEVEL mismatch',f,e['level'],c['level_claimed']['category'])
    except Exception as ex: print('EVIDENCE invalid',f,str(ex)[:200])
print('manifest+evidence validated')
PY
exit $fail
